(* Base/PyInt.v — Python integer facts shared by every model.
   Python's // and % are floor division / modulo with the sign of the divisor,
   i.e. exactly Coq's Z.div / Z.modulo.  The correspondence runs validate this on every run. *)
From Coq Require Export ZArith List Bool Lia ZifyBool.
Export ListNotations.
Open Scope Z_scope.
Ltac Zify.zify_post_hook ::= Z.to_euclidean_division_equations.

(* error values: one constructor per class of `raise` the properties distinguish *)
Inductive err :=
| EOutOfBounds | EEmptySlice | EZeroStep | EWidth | EBadKind | EUnresolved | EFuel
| EName | EMissing | EExtra | EOrphan | ENoConn | ECycle | EOther.

Inductive result (A : Type) := Ok (a : A) | Error (e : err).
Arguments Ok {A} a.
Arguments Error {A} e.

Definition bind {A B} (r : result A) (f : A -> result B) : result B :=
  match r with Ok a => f a | Error e => Error e end.
Notation "x <- r ;; k" := (bind r (fun x => k)) (at level 61, r at next level, right associativity).

Definition is_ok {A} (r : result A) : bool := match r with Ok _ => true | Error _ => false end.

Fixpoint traverse {A B} (f : A -> result B) (l : list A) : result (list B) :=
  match l with
  | [] => Ok []
  | x :: xs => y <- f x ;; ys <- traverse f xs ;; Ok (y :: ys)
  end.

(* arithmetic progression: n elements starting at a with stride st *)
Fixpoint iota (n : nat) (a st : Z) : list Z :=
  match n with O => [] | S n => a :: iota n (a + st) st end.

Lemma iota_length n : forall a st, length (iota n a st) = n.
Proof. induction n; simpl; auto. Qed.

Lemma iota_in n : forall x s y, In y (iota n x s) -> exists k, (0 <= k < Z.of_nat n) /\ y = x + k * s.
Proof.
  induction n; simpl; intros x s y H; [tauto|]. destruct H as [<-|H].
  - exists 0. lia.
  - apply IHn in H. destruct H as [k [Hk ->]]. exists (k+1). lia.
Qed.

Lemma iota_nth n : forall x s k, (k < n)%nat -> nth_error (iota n x s) k = Some (x + Z.of_nat k * s).
Proof.
  induction n; intros x s k Hk; [lia|]. destruct k; cbn [iota nth_error].
  - f_equal. lia.
  - rewrite IHn by lia. f_equal. lia.
Qed.

Definition zlen {A} (l : list A) : Z := Z.of_nat (length l).

Lemma traverse_ok_length {A B} (f : A -> result B) l : forall r, traverse f l = Ok r -> length r = length l.
Proof.
  induction l as [|x xs IH]; simpl; intros r H.
  - inversion H; reflexivity.
  - destruct (f x); simpl in H; [|discriminate]. destruct (traverse f xs); simpl in H; [|discriminate].
    inversion H; subst. simpl. f_equal. apply IH. reflexivity.
Qed.
