(* Base/Dec.v — finite decimals (the finite values of Python's decimal.Decimal), exact arithmetic,
   comparison through scaled integers, quantize (round-half-even) and the context-precision checks.
   Shared by C14 (prefixed numbers) and C13 (parameter values).

   A finite Decimal is a triple (sign, coefficient, exponent); its value is (-1)^sign * coefficient * 10^exponent.
   Exactness is stated WITHOUT rationals: `at_ e d` is the integer  value(d) / 10^e , defined for every e <= dexp d.
   Two decimals have the same value iff their `at_ e` agree at one (equivalently every) common e. *)
Require Import Hdl21.Base.PyInt.

Record dec := mkDec { dsign : bool; dcoef : N; dexp : Z }.

Definition dint (d : dec) : Z := if dsign d then - Z.of_N (dcoef d) else Z.of_N (dcoef d).
Definition of_int (z e : Z) : dec := mkDec (z <? 0) (Z.to_N (Z.abs z)) e.

Lemma dint_of_int z e : dint (of_int z e) = z.
Proof. unfold dint, of_int; cbn [dsign dcoef]. rewrite Z2N.id by lia. destruct (z <? 0) eqn:E; lia. Qed.
Lemma dexp_of_int z e : dexp (of_int z e) = e.
Proof. reflexivity. Qed.

(* ---------------------------------------------------------------- powers of ten *)
Lemma p10_pos k : 0 < 10 ^ k \/ k < 0.
Proof. destruct (Z_lt_le_dec k 0); [right; lia | left; apply Z.pow_pos_nonneg; lia]. Qed.
Lemma p10_pos' k : 0 <= k -> 0 < 10 ^ k.
Proof. intros; apply Z.pow_pos_nonneg; lia. Qed.
Lemma p10_add a b : 0 <= a -> 0 <= b -> 10 ^ (a + b) = 10 ^ a * 10 ^ b.
Proof. intros; apply Z.pow_add_r; lia. Qed.

(* pow10 k = 10 ^ k, computed by table lookup for 0 <= k < 512 (Z.pow iterates k multiplications, which dominates
   the cost of running the models on cases); every definition below computes with pow10, every lemma speaks of 10 ^ k *)
Definition p10tab : list Z := Eval vm_compute in (map (fun n => 10 ^ Z.of_nat n) (seq 0 512)).
Definition pow10 (k : Z) : Z := if (0 <=? k) && (k <? 512) then nth (Z.to_nat k) p10tab 0 else 10 ^ k.
Lemma p10tab_ok : forallb (fun n => nth n p10tab 0 =? 10 ^ Z.of_nat n) (seq 0 512) = true.
Proof. vm_compute. reflexivity. Qed.
Lemma pow10_spec k : pow10 k = 10 ^ k.
Proof.
  unfold pow10. destruct ((0 <=? k) && (k <? 512)) eqn:E; [|reflexivity].
  pose proof p10tab_ok as T. rewrite forallb_forall in T.
  specialize (T (Z.to_nat k)). rewrite in_seq in T. rewrite Z.eqb_eq in T. rewrite T by lia.
  rewrite Z2Nat.id by lia. reflexivity.
Qed.

(* ---------------------------------------------------------------- value at a common exponent *)
Definition at_ (e : Z) (d : dec) : Z := dint d * pow10 (dexp d - e).

Lemma at_shift e' e d : e' <= e -> e <= dexp d -> at_ e' d = at_ e d * 10 ^ (e - e').
Proof.
  intros H1 H2. unfold at_; rewrite ?pow10_spec. replace (dexp d - e') with ((dexp d - e) + (e - e')) by lia.
  rewrite p10_add by lia. ring.
Qed.

Lemma at_of_int z e e' : e' <= e -> at_ e' (of_int z e) = z * 10 ^ (e - e').
Proof. intros. unfold at_; rewrite ?pow10_spec. rewrite dint_of_int, dexp_of_int. reflexivity. Qed.

(* same value: agreement at the smaller exponent; independent of the common exponent chosen *)
Definition dmin (a b : dec) : Z := Z.min (dexp a) (dexp b).
Definition deqb (a b : dec) : bool := at_ (dmin a b) a =? at_ (dmin a b) b.
Definition dcmp (a b : dec) : comparison := at_ (dmin a b) a ?= at_ (dmin a b) b.
Definition dltb (a b : dec) : bool := at_ (dmin a b) a <? at_ (dmin a b) b.

Lemma at_eq_any e a b : e <= dexp a -> e <= dexp b ->
  (at_ e a = at_ e b <-> at_ (dmin a b) a = at_ (dmin a b) b).
Proof.
  intros Ha Hb. unfold dmin.
  rewrite (at_shift e (Z.min (dexp a) (dexp b)) a), (at_shift e (Z.min (dexp a) (dexp b)) b) by lia.
  pose proof (p10_pos' (Z.min (dexp a) (dexp b) - e)) as P. split; intros H.
  - apply Z.mul_reg_r in H; [assumption|lia].
  - rewrite H; reflexivity.
Qed.

Lemma at_lt_any e a b : e <= dexp a -> e <= dexp b ->
  (at_ e a < at_ e b <-> at_ (dmin a b) a < at_ (dmin a b) b).
Proof.
  intros Ha Hb. unfold dmin.
  rewrite (at_shift e (Z.min (dexp a) (dexp b)) a), (at_shift e (Z.min (dexp a) (dexp b)) b) by lia.
  pose proof (p10_pos' (Z.min (dexp a) (dexp b) - e)) as P. split; intros H.
  - apply Z.mul_lt_mono_pos_r in H; lia.
  - apply Z.mul_lt_mono_pos_r; lia.
Qed.

Lemma deqb_spec e a b : e <= dexp a -> e <= dexp b -> (deqb a b = true <-> at_ e a = at_ e b).
Proof. intros. unfold deqb. rewrite Z.eqb_eq. symmetry. apply at_eq_any; assumption. Qed.
Lemma dltb_spec e a b : e <= dexp a -> e <= dexp b -> (dltb a b = true <-> at_ e a < at_ e b).
Proof. intros. unfold dltb. rewrite Z.ltb_lt. symmetry. apply at_lt_any; assumption. Qed.

(* ---------------------------------------------------------------- exact arithmetic (no context rounding) *)
Definition dadd (a b : dec) : dec := let e := dmin a b in of_int (at_ e a + at_ e b) e.
Definition dsub (a b : dec) : dec := let e := dmin a b in of_int (at_ e a - at_ e b) e.
Definition dmul (a b : dec) : dec := of_int (dint a * dint b) (dexp a + dexp b).
Definition dneg (a : dec) : dec := of_int (- dint a) (dexp a).
Definition dabs (a : dec) : dec := of_int (Z.abs (dint a)) (dexp a).
Definition dscaleb (a : dec) (k : Z) : dec := mkDec (dsign a) (dcoef a) (dexp a + k).   (* a * 10^k *)

(* multiplication by Decimal(10) ** k, as the code scales between prefixes: 10**k is the coefficient 10^k at
   exponent 0 for k >= 0 and the coefficient 1 at exponent k for k < 0 (its value is exact in every context) *)
Definition dpow10 (k : Z) : dec := if 0 <=? k then of_int (pow10 k) 0 else of_int 1 k.
Definition dscale10 (a : dec) (k : Z) : dec := dmul a (dpow10 k).

Lemma dexp_dadd a b : dexp (dadd a b) = dmin a b. Proof. reflexivity. Qed.
Lemma dexp_dsub a b : dexp (dsub a b) = dmin a b. Proof. reflexivity. Qed.
Lemma dexp_dmul a b : dexp (dmul a b) = dexp a + dexp b. Proof. reflexivity. Qed.
Lemma dexp_dneg a : dexp (dneg a) = dexp a. Proof. reflexivity. Qed.
Lemma dexp_dabs a : dexp (dabs a) = dexp a. Proof. reflexivity. Qed.
Lemma dexp_dscaleb a k : dexp (dscaleb a k) = dexp a + k. Proof. reflexivity. Qed.
Lemma dint_dscaleb a k : dint (dscaleb a k) = dint a. Proof. reflexivity. Qed.

Lemma dadd_exact e a b : e <= dexp a -> e <= dexp b -> at_ e (dadd a b) = at_ e a + at_ e b.
Proof.
  intros Ha Hb. unfold dadd. rewrite at_of_int by (unfold dmin; lia).
  rewrite (at_shift e (dmin a b) a), (at_shift e (dmin a b) b) by (unfold dmin; lia). ring.
Qed.
Lemma dsub_exact e a b : e <= dexp a -> e <= dexp b -> at_ e (dsub a b) = at_ e a - at_ e b.
Proof.
  intros Ha Hb. unfold dsub. rewrite at_of_int by (unfold dmin; lia).
  rewrite (at_shift e (dmin a b) a), (at_shift e (dmin a b) b) by (unfold dmin; lia). ring.
Qed.
Lemma dmul_exact ea eb a b : ea <= dexp a -> eb <= dexp b -> at_ (ea + eb) (dmul a b) = at_ ea a * at_ eb b.
Proof.
  intros Ha Hb. unfold dmul. rewrite at_of_int by lia. unfold at_; rewrite ?pow10_spec.
  replace (dexp a + dexp b - (ea + eb)) with ((dexp a - ea) + (dexp b - eb)) by lia.
  rewrite p10_add by lia. ring.
Qed.
Lemma dneg_exact e a : at_ e (dneg a) = - at_ e a.
Proof. unfold dneg, at_; rewrite ?pow10_spec. rewrite dint_of_int, dexp_of_int. ring. Qed.
Lemma dabs_exact e a : e <= dexp a -> at_ e (dabs a) = Z.abs (at_ e a).
Proof.
  intros H. unfold dabs, at_; rewrite ?pow10_spec. rewrite dint_of_int, dexp_of_int. rewrite Z.abs_mul.
  rewrite (Z.abs_eq (10 ^ _)); [reflexivity|]. pose proof (p10_pos' (dexp a - e)); lia.
Qed.
Lemma dscaleb_exact e a k : at_ (e + k) (dscaleb a k) = at_ e a.
Proof. unfold at_; rewrite ?pow10_spec. rewrite dint_dscaleb, dexp_dscaleb. f_equal. f_equal. lia. Qed.

Lemma dexp_dscale10 a k : dexp (dscale10 a k) = dexp a + Z.min k 0.
Proof. unfold dscale10, dpow10. rewrite dexp_dmul. destruct (0 <=? k) eqn:E; rewrite dexp_of_int; lia. Qed.
Lemma dscale10_exact e a k : e <= dexp a -> e <= dexp a + k -> at_ e (dscale10 a k) = at_ (e - k) a.
Proof.
  intros H1 H2. unfold dscale10, dmul, dpow10; rewrite ?pow10_spec. destruct (0 <=? k) eqn:E.
  - rewrite at_of_int by (rewrite dexp_of_int; lia). rewrite dint_of_int, dexp_of_int. unfold at_; rewrite ?pow10_spec.
    replace (dexp a - (e - k)) with (k + (dexp a + 0 - e)) by lia. rewrite p10_add by lia. ring.
  - rewrite at_of_int by (rewrite dexp_of_int; lia). rewrite dint_of_int, dexp_of_int. unfold at_; rewrite ?pow10_spec.
    replace (dexp a - (e - k)) with (dexp a + k - e) by lia. ring.
Qed.

(* ---------------------------------------------------------------- rounding: round-half-even of n / d, d > 0 *)
Definition rhe (n d : Z) : Z :=
  let q := n / d in let r := n mod d in
  if 2 * r <? d then q else if d <? 2 * r then q + 1 else if Z.even q then q else q + 1.

Lemma rhe_bounds n d : 0 < d ->
  n / d <= rhe n d <= n / d + 1 /\ (2 * (n mod d) < d -> rhe n d = n / d) /\ (d < 2 * (n mod d) -> rhe n d = n / d + 1).
Proof.
  intros Hd. unfold rhe. destruct (2 * (n mod d) <? d) eqn:E1; [lia|].
  destruct (d <? 2 * (n mod d)) eqn:E2; [lia|]. destruct (Z.even (n / d)); lia.
Qed.

Lemma rhe_mono n1 n2 d : 0 < d -> n1 <= n2 -> rhe n1 d <= rhe n2 d.
Proof.
  intros Hd H. pose proof (Z.div_le_mono n1 n2 d Hd H) as Q.
  destruct (rhe_bounds n1 d Hd) as [B1 [L1 U1]]. destruct (rhe_bounds n2 d Hd) as [B2 [L2 U2]].
  destruct (Z.eq_dec (n1 / d) (n2 / d)) as [E|NE]; [|lia].
  pose proof (Z.div_mod n1 d ltac:(lia)) as D1. pose proof (Z.div_mod n2 d ltac:(lia)) as D2.
  rewrite E in D1. assert (n1 mod d <= n2 mod d) as R by lia.
  destruct (Z_lt_le_dec (2 * (n1 mod d)) d) as [A|A]; [rewrite (L1 A); lia|].
  destruct (Z.eq_dec (n1 mod d) (n2 mod d)) as [ER|NR].
  - assert (n1 = n2) as -> by lia. lia.
  - assert (d < 2 * (n2 mod d)) as A2 by lia. rewrite (U2 A2). lia.
Qed.

Lemma rhe_exact q d : 0 < d -> rhe (q * d) d = q.
Proof.
  intros Hd. destruct (rhe_bounds (q * d) d Hd) as [_ [L _]]. rewrite Z.div_mul in L by lia. apply L.
  rewrite Z.mod_mul by lia. lia.
Qed.

(* strictness: numbers more than one grid step apart are rounded to different grid points, in order *)
Lemma rhe_gap n1 n2 d : 0 < d -> n1 + d < n2 -> rhe n1 d < rhe n2 d.
Proof.
  intros Hd H.
  destruct (rhe_bounds n1 d Hd) as [B1 _]. destruct (rhe_bounds n2 d Hd) as [B2 [L2 U2]].
  pose proof (Z.div_mod n1 d ltac:(lia)) as D1. pose proof (Z.div_mod n2 d ltac:(lia)) as D2.
  pose proof (Z.mod_pos_bound n1 d Hd) as M1. pose proof (Z.mod_pos_bound n2 d Hd) as M2.
  assert (n1 / d + 1 <= n2 / d) as Q.
  { assert (n1 + d <= n2) as H' by lia. pose proof (Z.div_le_mono _ _ d Hd H') as Q.
    replace (n1 + d) with (n1 + 1 * d) in Q by lia. rewrite Z.div_add in Q by lia. exact Q. }
  destruct (Z.eq_dec (n1 / d + 1) (n2 / d)) as [E|NE]; [|lia].
  (* adjacent quotients: n2 mod d > n1 mod d *)
  assert (n1 mod d < n2 mod d) as R by nia.
  destruct (Z_lt_le_dec (2 * (n1 mod d)) d) as [A|A].
  - destruct (rhe_bounds n1 d Hd) as [_ [L1 _]]. rewrite (L1 A). lia.
  - assert (d < 2 * (n2 mod d)) as A2 by lia. rewrite (U2 A2). lia.
Qed.

Lemma rhe_scale n d k : 0 < d -> 0 < k -> rhe (n * k) (d * k) = rhe n d.
Proof.
  intros Hd Hk. unfold rhe. rewrite Z.div_mul_cancel_r, Z.mul_mod_distr_r by lia.
  replace (2 * (n mod d * k) <? d * k) with (2 * (n mod d) <? d) by (apply Bool.eq_true_iff_eq; rewrite !Z.ltb_lt; nia).
  replace (d * k <? 2 * (n mod d * k)) with (d <? 2 * (n mod d)) by (apply Bool.eq_true_iff_eq; rewrite !Z.ltb_lt; nia).
  reflexivity.
Qed.

(* quantize to exponent q (decimal.quantize / round(x, -q) under ROUND_HALF_EVEN): the integer coefficient
   of the result, whose exponent is exactly q *)
Definition dq_int (d : dec) (q : Z) : Z :=
  if q <=? dexp d then at_ q d else rhe (dint d) (pow10 (q - dexp d)).
Definition dquantize (d : dec) (q : Z) : dec := of_int (dq_int d q) q.

(* one description for both branches, at any exponent e below both *)
Lemma dq_int_rhe e d q : e <= q -> e <= dexp d -> dq_int d q = rhe (at_ e d) (10 ^ (q - e)).
Proof.
  intros Hq Hd. unfold dq_int; rewrite ?pow10_spec. destruct (q <=? dexp d) eqn:E.
  - rewrite (at_shift e q d) by lia. rewrite rhe_exact; [reflexivity|apply p10_pos'; lia].
  - unfold at_; rewrite ?pow10_spec. replace (q - e) with ((q - dexp d) + (dexp d - e)) by lia. rewrite p10_add by lia.
    rewrite rhe_scale; [reflexivity| |]; apply p10_pos'; lia.
Qed.

(* number of decimal digits of a coefficient (Python: len(str(c)), 1 for zero); fuel = bit length *)
Fixpoint ndig_aux (fuel : nat) (n : Z) : Z :=
  match fuel with
  | O => 1
  | S f => if n <? 10 then 1 else 1 + ndig_aux f (n / 10)
  end.
Definition ndigits (n : Z) : Z := ndig_aux (Z.to_nat (Z.log2 (Z.abs n)) + 1) (Z.abs n).

(* quantize under a context of precision `prec` (None: the exact context): decimal raises InvalidOperation
   when the quantized coefficient has more than prec digits *)
Inductive dec_err := InvalidOperation.
Definition quantize_ctx (prec : option Z) (d : dec) (q : Z) : dec + dec_err :=
  let r := dquantize d q in
  match prec with
  | Some p => if p <? ndigits (dint r) then inr InvalidOperation else inl r
  | None => inl r
  end.

(* rounding a result to the context precision (what +, * do in a context of precision prec) *)
Definition round_prec (prec : Z) (d : dec) : dec :=
  let n := ndigits (dint d) in
  if n <=? prec then d else dquantize d (dexp d + (n - prec)).

(* ---------------------------------------------------------------- normal form (no trailing zeros) *)
Fixpoint strip (fuel : nat) (c e : Z) : option (Z * Z) :=
  match fuel with
  | O => None
  | S f => if c mod 10 =? 0 then strip f (c / 10) (e + 1) else Some (c, e)
  end.

(* canonical representative of the value: (0, 0) for zero, else the coefficient not divisible by 10 *)
Definition dnorm (d : dec) : option (Z * Z) :=
  if dint d =? 0 then Some (0, 0) else strip (Z.to_nat (Z.log2 (Z.abs (dint d))) + 2) (dint d) (dexp d).

Lemma strip_ok fuel : forall c e, c <> 0 -> Z.abs c < 2 ^ Z.of_nat fuel ->
  exists c' e', strip fuel c e = Some (c', e') /\ e <= e' /\ c = c' * 10 ^ (e' - e) /\ c' mod 10 <> 0.
Proof.
  induction fuel as [|f IH]; intros c e Hc Hb.
  - simpl in Hb. lia.
  - cbn [strip]. destruct (c mod 10 =? 0) eqn:E.
    + assert (c = 10 * (c / 10)) as D by (pose proof (Z.div_mod c 10); lia).
      assert (c / 10 <> 0) as Hc' by lia.
      assert (Z.abs (c / 10) < 2 ^ Z.of_nat f) as Hb'.
      { rewrite Nat2Z.inj_succ, Z.pow_succ_r in Hb by lia. lia. }
      destruct (IH (c / 10) (e + 1) Hc' Hb') as [c' [e' [S [Le [Eq Nz]]]]].
      exists c', e'. repeat split; [assumption|lia| |assumption].
      rewrite D at 1. rewrite Eq. replace (e' - e) with (1 + (e' - (e + 1))) by lia.
      rewrite p10_add by lia. change (10 ^ 1) with 10. ring.
    + exists c, e. repeat split; [lia| |lia]. rewrite Z.sub_diag. change (10 ^ 0) with 1. ring.
Qed.

Lemma log2_fuel c : c <> 0 -> Z.abs c < 2 ^ Z.of_nat (Z.to_nat (Z.log2 (Z.abs c)) + 2).
Proof.
  intros Hc. pose proof (Z.log2_spec (Z.abs c) ltac:(lia)) as [_ U].
  pose proof (Z.log2_nonneg (Z.abs c)) as L.
  rewrite Nat2Z.inj_add, Z2Nat.id by lia. change (Z.of_nat 2) with 2.
  eapply Z.lt_le_trans; [exact U|]. apply Z.pow_le_mono_r; lia.
Qed.

(* the fuel is always sufficient *)
Lemma dnorm_total d : exists c e, dnorm d = Some (c, e).
Proof.
  unfold dnorm. destruct (dint d =? 0) eqn:E; [eauto|].
  destruct (strip_ok _ (dint d) (dexp d) ltac:(lia) (log2_fuel (dint d) ltac:(lia))) as [c [e [S _]]]. eauto.
Qed.

Lemma dnorm_spec d c e : dnorm d = Some (c, e) ->
  (dint d = 0 /\ c = 0 /\ e = 0) \/
  (dint d <> 0 /\ dexp d <= e /\ dint d = c * 10 ^ (e - dexp d) /\ c mod 10 <> 0).
Proof.
  unfold dnorm. destruct (dint d =? 0) eqn:E; intros H.
  - left. inversion H. lia.
  - right. destruct (strip_ok _ (dint d) (dexp d) ltac:(lia) (log2_fuel (dint d) ltac:(lia))) as [c' [e' [S R]]].
    rewrite S in H. inversion H; subst. split; [lia|exact R].
Qed.

(* uniqueness of the normal form: c1 * 10^e1 = c2 * 10^e2, neither divisible by ten *)
Lemma norm_unique c1 e1 c2 e2 m : m <= e1 -> m <= e2 -> c1 mod 10 <> 0 -> c2 mod 10 <> 0 ->
  c1 * 10 ^ (e1 - m) = c2 * 10 ^ (e2 - m) -> c1 = c2 /\ e1 = e2.
Proof.
  intros H1 H2 N1 N2 H.
  assert (forall a b ea eb, m <= ea -> ea < eb -> b mod 10 <> 0 -> a mod 10 <> 0 ->
            a * 10 ^ (ea - m) = b * 10 ^ (eb - m) -> False) as K.
  { intros a b ea eb Ha Hlt Nb Na Heq.
    replace (eb - m) with ((eb - ea - 1) + 1 + (ea - m)) in Heq by lia.
    rewrite !p10_add in Heq by lia. change (10 ^ 1) with 10 in Heq.
    rewrite !Z.mul_assoc in Heq. apply Z.mul_reg_r in Heq; [|pose proof (p10_pos' (ea - m)); lia].
    apply Na. rewrite Heq. rewrite Z.mod_mul; lia. }
  destruct (Z.lt_trichotomy e1 e2) as [L|[E|G]].
  - exfalso. apply (K c1 c2 e1 e2); assumption.
  - subst e2. split; [|reflexivity]. apply Z.mul_reg_r in H; [assumption|pose proof (p10_pos' (e1 - m)); lia].
  - exfalso. apply (K c2 c1 e2 e1); try assumption. symmetry; assumption.
Qed.

Lemma dnorm_eqv a b : at_ (dmin a b) a = at_ (dmin a b) b -> dnorm a = dnorm b.
Proof.
  intros H. destruct (dnorm_total a) as [ca [ea Na]]. destruct (dnorm_total b) as [cb [eb Nb]].
  rewrite Na, Nb. f_equal.
  pose proof (dnorm_spec a ca ea Na) as Sa. pose proof (dnorm_spec b cb eb Nb) as Sb.
  unfold at_ in H; rewrite ?pow10_spec in H. set (m := dmin a b) in *. assert (m <= dexp a /\ m <= dexp b) as [Ma Mb] by (unfold m, dmin; lia).
  pose proof (p10_pos' (dexp a - m)) as Pa. pose proof (p10_pos' (dexp b - m)) as Pb.
  destruct Sa as [[Za [-> ->]]|[Nza [Lea [Eqa Nda]]]]; destruct Sb as [[Zb [-> ->]]|[Nzb [Leb [Eqb Ndb]]]].
  - reflexivity.
  - exfalso. rewrite Za in H. apply Nzb. nia.
  - exfalso. rewrite Zb in H. apply Nza. nia.
  - rewrite Eqa, Eqb in H. rewrite <- !Z.mul_assoc, <- !p10_add in H by lia.
    replace (ea - dexp a + (dexp a - m)) with (ea - m) in H by lia.
    replace (eb - dexp b + (dexp b - m)) with (eb - m) in H by lia.
    destruct (norm_unique ca ea cb eb m ltac:(lia) ltac:(lia) Nda Ndb H) as [-> ->]. reflexivity.
Qed.

(* ---------------------------------------------------------------- integer part (int(Decimal): truncation toward zero) *)
Definition dtrunc (d : dec) : Z :=
  if 0 <=? dexp d then dint d * pow10 (dexp d) else Z.quot (dint d) (pow10 (- dexp d)).

(* t is the integer part of c * 10^k : specification independent of the algorithm *)
Definition is_trunc (t c k : Z) : Prop :=
  (0 <= k -> t = c * 10 ^ k) /\
  (k < 0 -> Z.abs t * 10 ^ (- k) <= Z.abs c < (Z.abs t + 1) * 10 ^ (- k) /\ 0 <= t * c).

Lemma dtrunc_spec d : is_trunc (dtrunc d) (dint d) (dexp d).
Proof.
  unfold is_trunc, dtrunc; rewrite ?pow10_spec. split; intros H.
  - assert (0 <=? dexp d = true) as -> by lia. reflexivity.
  - assert (0 <=? dexp d = false) as -> by lia.
    pose proof (p10_pos' (- dexp d) ltac:(lia)) as P. set (m := 10 ^ (- dexp d)) in *.
    destruct (Z_le_gt_dec 0 (dint d)) as [C|C].
    + rewrite Z.quot_div_nonneg by lia.
      pose proof (Z.div_mod (dint d) m ltac:(lia)) as D. pose proof (Z.mod_pos_bound (dint d) m P) as B.
      pose proof (Z.div_pos (dint d) m C P) as Q. set (q := dint d / m) in *. set (r := dint d mod m) in *. nia.
    + assert (Z.quot (dint d) m = - ((- dint d) / m)) as ->.
      { rewrite <- Z.quot_div_nonneg by lia. rewrite Z.quot_opp_l by lia. lia. }
      pose proof (Z.div_mod (- dint d) m ltac:(lia)) as D. pose proof (Z.mod_pos_bound (- dint d) m P) as B.
      pose proof (Z.div_pos (- dint d) m ltac:(lia) P) as Q.
      set (q := - dint d / m) in *. set (r := (- dint d) mod m) in *. nia.
Qed.
