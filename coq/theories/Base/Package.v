(* Base/Package.v — a VLSIR circuit package as the exporter writes it and as the vlsirtools
   netlisters read it: a bus is written w-1 .. 0, a slice top .. bot (both inclusive), the parts of
   a concatenation left to right — i.e. the most significant part first. `read_target` returns
   the bits LEAST significant first; it is strict (no clamping, no wrap-around): a target naming
   an undeclared signal or a bit outside its signal is an error. *)
Require Import Hdl21.Base.PyInt Hdl21.Spec.PySlice Hdl21.Model.Slice Hdl21.Model.Resolve Hdl21.Base.Design.

Inductive ptarget := PSig (s : name) | PSlice (s : name) (top bot : Z) | PConcat (parts : list ptarget).
Inductive pref := PLocal (nm : name) | PExt (domain nm : name).

Record pinst := { pi_name : name; pi_ref : pref; pi_params : list (name * string); pi_conns : list (name * ptarget) }.
Record pmodule := { pm_name : name; pm_sigs : list (name * Z); pm_ports : list (name * Z) (* name, direction code *);
                    pm_insts : list pinst; pm_literals : list string }.
Record pext := { px_domain : name; px_name : name; px_ports : list (name * Z * Z) (* name, width, direction *);
                 px_spicetype : string }.
Record package := { pk_domain : string; pk_exts : list pext; pk_mods : list pmodule }.

Definition sbit := (name * Z)%type.

(* bits of a target in the order the netlisters write them: most significant first *)
Fixpoint read_target_msb (sigs : list (name * Z)) (t : ptarget) : result (list sbit) :=
  match t with
  | PSig s => w <- ofopt EMissing (assoc s sigs) ;;
              if w <? 1 then Error EWidth else Ok (rev (map (pair s) (iota (Z.to_nat w) 0 1)))
  | PSlice s top bot =>
      w <- ofopt EMissing (assoc s sigs) ;;
      if (0 <=? bot) && (bot <=? top) && (top <? w) then Ok (rev (map (pair s) (iota (Z.to_nat (top - bot + 1)) bot 1)))
      else Error EOutOfBounds
  | PConcat parts => cat_results (map (read_target_msb sigs) parts)
  end.

(* ... and least significant first, the order of Hdl21's own connectables *)
Definition read_target (sigs : list (name * Z)) (t : ptarget) : result (list sbit) :=
  r <- read_target_msb sigs t ;; Ok (rev r).

(* ---- a package read as a design (all leaves are signals) ---- *)
Fixpoint index_of (s : name) (l : list (name * Z)) (k : N) : option N :=
  match l with
  | [] => None
  | (s', _) :: l' => if String.eqb s s' then Some k else index_of s l' (k + 1)%N
  end.

Definition sbit_sx (sigs : list (name * Z)) (b : sbit) : result sx :=
  id <- ofopt EMissing (index_of (fst b) sigs 0%N) ;; w <- ofopt EMissing (assoc (fst b) sigs) ;;
  Ok (XSlice (XSig id w) (Idx (snd b))).

Definition target_sx (sigs : list (name * Z)) (t : ptarget) : result sx :=
  bits <- read_target sigs t ;; parts <- traverse (sbit_sx sigs) bits ;; Ok (XConcat parts).

Fixpoint find_pmod (ms : list pmodule) (nm : name) (k : nat) : option nat :=
  match ms with
  | [] => None
  | m :: ms' => if String.eqb (pm_name m) nm then Some k else find_pmod ms' nm (S k)
  end.

Fixpoint find_ext (xs : list pext) (dom nm : name) : option pext :=
  match xs with
  | [] => None
  | x :: xs' => if String.eqb (px_domain x) dom && String.eqb (px_name x) nm then Some x else find_ext xs' dom nm
  end.

Fixpoint params_str (ps : list (name * string)) : string :=
  match ps with
  | [] => ""
  | (k, v) :: ps' => sapp k (sapp "=" (sapp v (sapp ";" (params_str ps'))))
  end.

Definition pinst_target (prims : list pext) (p : package) (i : pinst) : result target :=
  match pi_ref i with
  | PLocal nm => k <- ofopt EMissing (find_pmod (pk_mods p) nm 0) ;; Ok (TMod k)
  | PExt dom nm =>
      x <- ofopt EMissing (match find_ext (pk_exts p) dom nm with Some x => Some x | None => find_ext prims dom nm end) ;;
      Ok (TDev (sapp dom (sapp "/" (sapp nm (sapp "{" (sapp (params_str (pi_params i)) "}"))))) (map (fun pwd => (fst (fst pwd), snd (fst pwd))) (px_ports x)))
  end.

Definition pinst_inst (prims : list pext) (p : package) (m : pmodule) (i : pinst) : result inst :=
  t <- pinst_target prims p i ;;
  cs <- traverse (fun c => x <- target_sx (pm_sigs m) (snd c) ;; Ok (fst c, x)) (pi_conns i) ;;
  Ok {| i_name := pi_name i; i_n := 0; i_of := t; i_conns := cs |}.

Fixpoint number_leaves (sigs : list (name * Z)) (k : N) : list (N * leaf) :=
  match sigs with
  | [] => []
  | (s, _) :: l => (k, LSig s) :: number_leaves l (k + 1)%N
  end.

Definition pmodule_module (prims : list pext) (p : package) (m : pmodule) : result module :=
  is <- traverse (pinst_inst prims p m) (pm_insts m) ;;
  ports <- traverse (fun pd => w <- ofopt EMissing (assoc (fst pd) (pm_sigs m)) ;; Ok (fst pd, w)) (pm_ports m) ;;
  Ok {| m_name := pm_name m; m_ports := ports;
        m_sigs := filter (fun sw => match assoc (fst sw) (pm_ports m) with Some _ => false | None => true end) (pm_sigs m);
        m_insts := is; m_leaves := number_leaves (pm_sigs m) 0%N |}.

Definition design_of_pkg (prims : list pext) (p : package) (top : name) : result design :=
  ms <- traverse (pmodule_module prims p) (pk_mods p) ;;
  k <- ofopt EMissing (find_pmod (pk_mods p) top 0) ;;
  Ok {| d_mods := ms; d_top := k |}.
