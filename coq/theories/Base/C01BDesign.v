(* Base/C01BDesign.v — the BUNDLE fragment of the abstract design language (extension of Base/Design.v for C01).

   A module additionally owns bundle instances (ports or internal), each given by its definition tree
   (Spec/BundleSpec.v:btree, the type property C10 is stated over; the root carries the instance name).
   A connection is a bundle expression:
     BXSx x         a scalar (sliceable) expression over the module's leaf table        (scalar ports; members of anonymous bundles)
     BXInst b pre   the bundle instance b (pre = []) or the sub-bundle reference b.pre
     BXAnon ms      an anonymous bundle: member name -> bundle expression                (h.AnonymousBundle, h.bundlize, dict shorthand)
     BXRef i p      the bundle-valued port p of the sibling instance i
     BXNc site      a no-connect on a bundle-valued port
   Scalar leaves additionally include `BLMem b q`: the scalar member q of bundle instance b (b.x, b.sub.x), which can be
   sliced and concatenated like every leaf.  An instance is single (bi_n = 0), an array (bi_n >= 1) or a Pair
   (bi_pair = true: two elements, 0 = "p" and 1 = "n"). *)
Require Import Hdl21.Base.PyInt Hdl21.Spec.PySlice Hdl21.Model.Slice Hdl21.Model.Resolve Hdl21.Base.Design.
Require Hdl21.Spec.BundleSpec.

Definition mpath := list name.             (* member path inside a bundle instance, outermost first *)
Definition btree := BundleSpec.btree.

Inductive bleaf := BLSig (s : name) | BLMem (b : name) (q : mpath) | BLRef (i p : name) | BLNc (site : N).

Inductive bexpr :=
| BXSx (x : sx)
| BXInst (b : name) (pre : mpath)
| BXAnon (ms : list (name * bexpr))
| BXRef (i p : name)
| BXNc (site : N).

Record binst := { bi_name : name; bi_n : Z; bi_pair : bool; bi_of : target; bi_conns : list (name * bexpr) }.

Record bmodule := { bm_name : name; bm_ports : list (name * Z); bm_sigs : list (name * Z);
                    bm_bundles : list (bool * btree);     (* (is a port, definition tree), in the order they were added *)
                    bm_insts : list binst; bm_leaves : list (N * bleaf) }.

Record bdesign := { bd_mods : list bmodule; bd_top : nat }.

Definition nth_bmod (d : bdesign) (k : nat) : result bmodule := ofopt EMissing (nth_error (bd_mods d) k).

Fixpoint find_binst (is : list binst) (i : name) : option binst :=
  match is with
  | [] => None
  | x :: is' => if String.eqb (bi_name x) i then Some x else find_binst is' i
  end.

Fixpoint find_bundle (bs : list (bool * btree)) (b : name) : option (bool * btree) :=
  match bs with
  | [] => None
  | x :: bs' => if String.eqb (BundleSpec.bname (snd x)) b then Some x else find_bundle bs' b
  end.

(* the sub-bundle instance reached from the root along `pre` *)
Fixpoint subtree (pre : mpath) (t : btree) : option btree :=
  match pre with
  | [] => Some t
  | n :: r => match BundleSpec.find_sub n (BundleSpec.bsubs t) with Some s => subtree r s | None => None end
  end.

(* width of the scalar member at path q *)
Definition member_width (t : btree) (q : mpath) : option Z :=
  match BundleSpec.walk q t with Some (_, l) => Some (BundleSpec.lwidth l) | None => None end.

(* member paths with their widths, in flattening order *)
Definition tree_members (t : btree) : list (mpath * Z) :=
  concat (map (fun q => match member_width t q with Some w => [(q, w)] | None => [] end) (BundleSpec.paths t)).

(* width of member mp (mp = []: the scalar port itself) of port `port` of the target *)
Definition btarget_port_width (d : bdesign) (t : target) (port : name) (mp : mpath) : result Z :=
  match t with
  | TDev _ ps => match mp with [] => ofopt EMissing (assoc port ps) | _ => Error EBadKind end
  | TMod k =>
      m <- nth_bmod d k ;;
      match mp with
      | [] => ofopt EMissing (assoc port (bm_ports m))
      | _ => match find_bundle (bm_bundles m) port with
             | Some (true, t) => ofopt EMissing (member_width t mp)
             | _ => Error EMissing
             end
      end
  end.

Fixpoint bassoc (k : name) (l : list (name * bexpr)) : option bexpr :=
  match l with
  | [] => None
  | (k', v) :: l' => if String.eqb k k' then Some v else bassoc k l'
  end.

(* what member mp of a bundle expression is *)
Inductive mtarget := MTSig (b : name) (q : mpath) | MTSx (x : sx) | MTRef (i p : name) (q : mpath) | MTNc.

Fixpoint member (bx : bexpr) (mp : mpath) : result mtarget :=
  match bx with
  | BXSx x => match mp with [] => Ok (MTSx x) | _ => Error EBadKind end
  | BXInst b pre => Ok (MTSig b (pre ++ mp))
  | BXRef i p => Ok (MTRef i p mp)
  | BXNc _ => Ok MTNc
  | BXAnon ms =>
      match mp with
      | [] => Error EBadKind
      | n :: rest =>
          (fix go (l : list (name * bexpr)) : result mtarget :=
             match l with
             | [] => Error EMissing
             | (n', sub) :: l' => if String.eqb n n' then member sub rest else go l'
             end) ms
      end
  end.

Definition is_sx (bx : bexpr) : bool := match bx with BXSx _ => true | _ => false end.

(* the members of a Pair are called p and n (hdl21/diff_pair.py: Diff) *)
Definition pair_elem (e : Z) : name := if e =? 0 then "p" else "n".

Definition is_bport (m : bmodule) (s : name) (mp : mpath) : bool :=
  match mp with
  | [] => match assoc s (bm_ports m) with Some _ => true | None => false end
  | _ => match find_bundle (bm_bundles m) s with Some (true, _) => true | _ => false end
  end.
