(* Base/Design.v — the abstract design language shared by C01, C02, C04, C05, C06, C16, C19.
   A design is what the designer wrote: modules with ports, signals and instances whose
   connections are sliceable expressions (Model/Resolve.v:sx) over three kinds of leaves:
   a signal of the module, a reference to a port of a sibling instance, a no-connect site.
   Leaves occur in expressions as `XSig id w`; the module's leaf table says what `id` denotes. *)
Require Import Hdl21.Base.PyInt Hdl21.Spec.PySlice Hdl21.Model.Slice Hdl21.Model.Resolve.
From Coq Require String.
Export String.StringSyntax.
Open Scope string_scope.
Open Scope Z_scope.

Definition name := String.string.
Definition string := String.string.
Definition sapp := String.append.

Fixpoint assoc {A} (k : name) (l : list (name * A)) : option A :=
  match l with
  | [] => None
  | (k', v) :: l' => if String.eqb k k' then Some v else assoc k l'
  end.

Fixpoint assocN {A} (k : N) (l : list (N * A)) : option A :=
  match l with
  | [] => None
  | (k', v) :: l' => if N.eqb k k' then Some v else assocN k l'
  end.

Definition ofopt {A} (e : err) (o : option A) : result A := match o with Some a => Ok a | None => Error e end.

Inductive leaf := LSig (s : name) | LRef (i p : name) | LNc (site : N).

(* an instance target: a module of the design (by position) or a leaf device
   (primitive or external module) given by its ordered ports with widths *)
Inductive target := TMod (k : nat) | TDev (dev : name) (ports : list (name * Z)).

Record inst := { i_name : name; i_n : Z (* 0: single instance; n >= 1: array of n *);
                 i_of : target; i_conns : list (name * sx) }.

Record module := { m_name : name; m_ports : list (name * Z); m_sigs : list (name * Z);
                   m_insts : list inst; m_leaves : list (N * leaf) }.

Record design := { d_mods : list module; d_top : nat }.

Definition nth_mod (d : design) (k : nat) : result module := ofopt EMissing (nth_error (d_mods d) k).

Fixpoint find_inst (is : list inst) (i : name) : option inst :=
  match is with
  | [] => None
  | x :: is' => if String.eqb (i_name x) i then Some x else find_inst is' i
  end.

Definition target_ports (d : design) (t : target) : result (list (name * Z)) :=
  match t with
  | TMod k => m <- nth_mod d k ;; Ok (m_ports m)
  | TDev _ ps => Ok ps
  end.

Definition port_width (d : design) (i : inst) (p : name) : result Z :=
  ps <- target_ports d (i_of i) ;; ofopt EMissing (assoc p ps).

Definition sig_width (m : module) (s : name) : option Z :=
  match assoc s (m_ports m) with Some w => Some w | None => assoc s (m_sigs m) end.

Definition is_port (m : module) (s : name) : bool :=
  match assoc s (m_ports m) with Some _ => true | None => false end.
