(* Base/PrimTable.v — the primitive library as external modules of the two primitive domains,
   computed from the regenerated table Hdl21Gen.Primitives. *)
Require Import Hdl21.Base.PyInt Hdl21.Base.Design Hdl21.Base.Package.
Require Import Hdl21Gen.Primitives.

Definition prim_ports (ps : list (string * Z)) : list (name * Z * Z) := map (fun pw => (fst pw, snd pw, 3)) ps.

Definition prims_ext : list pext :=
  concat (map (fun e : string * string * list (string * Z) =>
    let '(nm, ty, ps) := e in
    if String.eqb ty "PHYSICAL" then
      [{| px_domain := "hdl21.primitives"; px_name := nm; px_ports := prim_ports ps; px_spicetype := "" |}]
    else match assoc nm prim_map_export with
         | Some v => [{| px_domain := "vlsir.primitives"; px_name := v; px_ports := prim_ports ps; px_spicetype := "" |}]
         | None => []
         end) primitives).
